// gen_test.go: rapid generators of uGO values (plain and non-plain) and of
// JSON documents (grammar, near-valid, single-edit mutations, arbitrary
// bytes), plus the fixed enumerated corpora.
package c17

import (
	"bytes"
	"errors"
	"fmt"
	"math"
	"strings"
	gotime "time"

	"github.com/ozanh/ugo"
	ugofmt "github.com/ozanh/ugo/stdlib/fmt"
	ugojson "github.com/ozanh/ugo/stdlib/json"
	ugotime "github.com/ozanh/ugo/stdlib/time"
	"pgregory.net/rapid"

	"verif/internal/vals"
)

// ---------------------------------------------------------------- values ---

// extra string pool on top of vals.Strings: every escape class of encode.go.
var escStrings = []string{
	"<script>alert('&')</script>", "a b c", "‧‪", "\x00\x01\x1f\x20\x7f", "\b\f", "tab\there",
	"\xe2\x80", "\xe2\x80\xa8", "\xc0\xaf", "\xf4\x90\x80\x80", "\xed\xa0\x80\xed\xb0\x80", "�", "￿", "\U0010FFFF",
	"\\u0041", "\"quoted\"", "/slash/", "é\xffé", "\xff<\xfe>", strings.Repeat("x", 70), strings.Repeat("<", 33),
}

var floatPool = []float64{
	1e21, 9.999999999999999e20, 1.0000000000000001e21, 1e-6, 9.999999999999999e-7, 1e-7, 1.0000000000000002e-6,
	-1e21, -1e-7, 1e-9, 1e-10, 1.5e-9, 1e100, 1e-100, 123456789.125, 0.1, 0.30000000000000004, 4.9e-324, 2.2250738585072014e-308,
	2.225073858507201e-308, math.MaxFloat64, -math.MaxFloat64, 1 << 53, 1e15, 1e16, 1e17, 100, 1e5, 123e18,
	math.Float64frombits(0x8000000000000000), math.Float64frombits(1), math.Float64frombits(0x000fffffffffffff),
}

func strGen() *rapid.Generator[string] {
	return rapid.OneOf(vals.Str(), rapid.SampledFrom(escStrings), rapid.Custom(func(t *rapid.T) string {
		n := rapid.IntRange(1, 3).Draw(t, "n")
		s := ""
		for i := 0; i < n; i++ {
			s += rapid.SampledFrom(escStrings).Draw(t, "esc")
		}
		return s
	}))
}

type plainOpts struct {
	jsonOnly bool // only JSON-representable: valid UTF-8 strings, finite floats, bool, undefined, array, map
	maxDepth int
}

// plainValue generates a plain uGO value with the boundary pools of vals and
// the escape / float-format pools above.
func plainValue(t *rapid.T, o plainOpts, depth int) ugo.Object {
	kinds := []string{"float", "float", "bool", "string", "string", "undefined"}
	if !o.jsonOnly {
		kinds = append(kinds, "int", "uint", "char", "bytes")
	}
	if depth < o.maxDepth {
		kinds = append(kinds, "array", "map", "array", "map")
		if depth == 0 { // most top-level values are containers
			kinds = append(kinds, "array", "map", "array", "map", "array", "map", "array", "map", "array", "map", "array", "map")
		}
	}
	str := func(label string) string {
		s := strGen().Draw(t, label)
		if o.jsonOnly {
			s = string([]rune(s))
		}
		return s
	}
	switch rapid.SampledFrom(kinds).Draw(t, "kind") {
	case "int":
		return ugo.Int(vals.Int().Draw(t, "int"))
	case "uint":
		return ugo.Uint(vals.Uint().Draw(t, "uint"))
	case "char":
		return ugo.Char(vals.Char().Draw(t, "char"))
	case "float":
		f := rapid.OneOf(vals.Float(), rapid.SampledFrom(floatPool)).Draw(t, "float")
		if o.jsonOnly && (math.IsNaN(f) || math.IsInf(f, 0)) {
			f = 0.25
		}
		return ugo.Float(f)
	case "bool":
		return ugo.Bool(rapid.Bool().Draw(t, "bool"))
	case "string":
		return ugo.String(str("str"))
	case "bytes":
		var b []byte
		if rapid.IntRange(0, 9).Draw(t, "longbytes") == 0 {
			// the three code paths of bytesEncoder: <=64, <=1024, >1024 encoded bytes
			n := rapid.SampledFrom([]int{47, 48, 49, 767, 768, 769, 1000}).Draw(t, "blen")
			b = bytes.Repeat([]byte{byte(rapid.IntRange(0, 255).Draw(t, "bfill"))}, n)
		} else {
			b = rapid.SliceOfN(rapid.Byte(), 0, 8).Draw(t, "bytes")
		}
		if b == nil {
			b = []byte{}
		}
		return ugo.Bytes(b)
	case "undefined":
		return ugo.Undefined
	case "array":
		n := rapid.IntRange(0, 4).Draw(t, "alen")
		arr := make(ugo.Array, 0, n)
		for i := 0; i < n; i++ {
			arr = append(arr, plainValue(t, o, depth+1))
		}
		return arr
	default:
		n := rapid.IntRange(0, 4).Draw(t, "mlen")
		m := make(ugo.Map, n)
		for i := 0; i < n; i++ {
			var k string
			if rapid.Bool().Draw(t, "poolkey") {
				k = vals.Key().Draw(t, "key")
				if o.jsonOnly {
					k = string([]rune(k))
				}
			} else {
				k = str("keystr")
			}
			m[k] = plainValue(t, o, depth+1)
		}
		return m
	}
}

func hasNaNInf(v ugo.Object) bool {
	switch x := v.(type) {
	case ugo.Float:
		return math.IsNaN(float64(x)) || math.IsInf(float64(x), 0)
	case ugo.Array:
		for _, e := range x {
			if hasNaNInf(e) {
				return true
			}
		}
	case ugo.Map:
		for _, e := range x {
			if hasNaNInf(e) {
				return true
			}
		}
	}
	return false
}

// needsEscape reports whether v contains a string (or key) the encoder has to
// escape or repair (the non-trivial rule of value cases together with nesting).
func needsEscape(v ugo.Object) bool {
	esc := func(s string) bool {
		for i := 0; i < len(s); i++ {
			c := s[i]
			if c < 0x20 || c == '"' || c == '\\' || c == '<' || c == '>' || c == '&' || c >= 0x80 {
				return true
			}
		}
		return false
	}
	switch x := v.(type) {
	case ugo.String:
		return esc(string(x))
	case ugo.Array:
		for _, e := range x {
			if needsEscape(e) {
				return true
			}
		}
	case ugo.Map:
		for k, e := range x {
			if esc(k) || needsEscape(e) {
				return true
			}
		}
	}
	return false
}

// customObj is an embedder defined object type unknown to the json module.
type customObj struct {
	ugo.ObjectImpl
	n int
}

func (*customObj) TypeName() string { return "custom" }
func (c *customObj) String() string { return fmt.Sprintf("custom(%d)", c.n) }

var compiledFn ugo.Object

func init() {
	bc, err := ugo.Compile([]byte(`return func(a) { return a }`), ugo.CompilerOptions{})
	if err != nil {
		panic(err)
	}
	compiledFn, err = ugo.NewVM(bc).Run(nil)
	if err != nil {
		panic(err)
	}
	if _, ok := compiledFn.(*ugo.CompiledFunction); !ok {
		panic(fmt.Sprintf("expected compiled function, got %T", compiledFn))
	}
}

type namedVal struct {
	name string
	mk   func() ugo.Object
}

// nonPlainLeafs: one constructor per non-plain leaf kind (fresh value per call).
func nonPlainLeafs() []namedVal {
	scanArg := func() ugo.Object {
		f := ugofmt.Module["ScanArg"].(*ugo.Function)
		o, err := f.Value()
		if err != nil || o == nil {
			return &customObj{n: 2}
		}
		return o
	}
	return []namedVal{
		{"compiledFunction", func() ugo.Object { return compiledFn }},
		{"function", func() ugo.Object {
			return &ugo.Function{Name: "gofn", Value: func(...ugo.Object) (ugo.Object, error) { return ugo.Undefined, nil }}
		}},
		{"builtinFunction", func() ugo.Object { return ugo.BuiltinObjects[ugo.BuiltinLen] }},
		{"error", func() ugo.Object { return &ugo.Error{Name: "E", Message: "boom"} }},
		{"error-cause", func() ugo.Object { return &ugo.Error{Message: "x", Cause: errors.New("cause")} }},
		{"builtin-error", func() ugo.Object { return ugo.ErrType }},
		{"runtimeError", func() ugo.Object { return &ugo.RuntimeError{Err: &ugo.Error{Name: "R", Message: "rt"}} }},
		{"time", func() ugo.Object {
			return &ugotime.Time{Value: gotime.Date(2024, 2, 29, 23, 59, 59, 999, gotime.UTC)}
		}},
		{"time-zero", func() ugo.Object { return &ugotime.Time{} }},
		{"time-year10000", func() ugo.Object {
			return &ugotime.Time{Value: gotime.Date(10000, 1, 1, 0, 0, 0, 0, gotime.UTC)}
		}},
		{"time-zone", func() ugo.Object {
			return &ugotime.Time{Value: gotime.Date(1999, 12, 31, 1, 2, 3, 0, gotime.FixedZone("<&>", 3600+60))}
		}},
		{"location", func() ugo.Object { return &ugotime.Location{Value: gotime.UTC} }},
		{"scanArg", scanArg},
		{"custom", func() ugo.Object { return &customObj{n: 1} }},
		{"nil-syncMap", func() ugo.Object { return (*ugo.SyncMap)(nil) }},
		{"syncMap-nil-value", func() ugo.Object { return &ugo.SyncMap{} }},
		{"nil-map", func() ugo.Object { return ugo.Map(nil) }},
		{"nil-array", func() ugo.Object { return ugo.Array(nil) }},
		{"nil-bytes", func() ugo.Object { return ugo.Bytes(nil) }},
		{"objectPtr-nil-value", func() ugo.Object { return &ugo.ObjectPtr{} }},
		{"nil-rawMessage", func() ugo.Object { return (*ugojson.RawMessage)(nil) }},
		{"rawMessage-nil-value", func() ugo.Object { return &ugojson.RawMessage{} }},
		{"rawMessage-empty", func() ugo.Object { return &ugojson.RawMessage{Value: []byte{}} }},
	}
}

var rawPool = []string{
	`null`, `1`, `"s"`, `[1,2]`, `{"a":[true,null]}`, ` { "a" : "<>&" } `, "[\n1,\t2 ]", `" "`, "\"\xe2\x80\xa8\"", `1e400`,
	``, ` `, `{`, `[1,]`, `{"a":}`, `1 2`, `tru`, `"abc`, "\x00", `<`, `[1]]`, `nul`, `"\x"`, `{"a":1,}`, `01`, `'a'`,
}

// anyValue generates a value over every type: plain leaves, non-plain leaves,
// raw messages (valid and invalid), and the wrappers SyncMap, ObjectPtr and
// the options objects made by the module's own Quote / NoQuote / NoEscape.
func anyValue(t *rapid.T, depth int) ugo.Object { return anyValueX(t, depth, false) }

// scriptLeafs: the leaves a script can hold (no typed nils / nil containers).
func scriptLeafs() []namedVal {
	var out []namedVal
	for _, l := range nonPlainLeafs() {
		if strings.Contains(l.name, "nil") {
			continue
		}
		out = append(out, l)
	}
	return out
}

func anyValueX(t *rapid.T, depth int, script bool) ugo.Object {
	kinds := []string{"plain", "plain", "nonplain", "nonplain", "raw"}
	if depth < 6 {
		kinds = append(kinds, "array", "map", "array", "map", "syncmap", "ptr", "opts", "opts")
		if depth == 0 {
			kinds = append(kinds, "array", "map", "array", "map", "syncmap", "ptr", "opts", "array", "map")
		}
	}
	switch rapid.SampledFrom(kinds).Draw(t, "akind") {
	case "plain":
		return plainValue(t, plainOpts{maxDepth: 0}, 0)
	case "nonplain":
		l := nonPlainLeafs()
		if script {
			l = scriptLeafs()
		}
		return l[rapid.IntRange(0, len(l)-1).Draw(t, "leaf")].mk()
	case "raw":
		if rapid.Bool().Draw(t, "rawpool") {
			return &ugojson.RawMessage{Value: []byte(rapid.SampledFrom(rawPool).Draw(t, "raw"))}
		}
		return &ugojson.RawMessage{Value: genDoc(t, "rawdoc")}
	case "array":
		n := rapid.IntRange(0, 3).Draw(t, "alen")
		arr := make(ugo.Array, 0, n)
		for i := 0; i < n; i++ {
			arr = append(arr, anyValueX(t, depth+1, script))
		}
		return arr
	case "map", "syncmap":
		sync := false
		if depth >= 0 {
			sync = rapid.IntRange(0, 3).Draw(t, "sync") == 0
		}
		n := rapid.IntRange(0, 3).Draw(t, "mlen")
		m := make(ugo.Map, n)
		for i := 0; i < n; i++ {
			m[vals.Key().Draw(t, "key")] = anyValueX(t, depth+1, script)
		}
		if sync {
			return &ugo.SyncMap{Value: m}
		}
		return m
	case "ptr":
		v := anyValueX(t, depth+1, script)
		return &ugo.ObjectPtr{Value: &v}
	default: // opts
		v := anyValueX(t, depth+1, script)
		fn := rapid.SampledFrom([]string{"Quote", "NoQuote", "NoEscape"}).Draw(t, "optfn")
		ret, err := modFn(fn)(v)
		if err != nil {
			t.Fatalf("adapter %s: %v", fn, err)
		}
		return ret
	}
}

func containsNonPlain(v ugo.Object) bool { return !isPlain(v) }

// nestArray returns depth nested arrays around core.
func nestArray(core ugo.Object, depth int) ugo.Object {
	v := core
	for i := 0; i < depth; i++ {
		v = ugo.Array{v}
	}
	return v
}

func nestMap(core ugo.Object, depth int) ugo.Object {
	v := core
	for i := 0; i < depth; i++ {
		v = ugo.Map{"k": v}
	}
	return v
}

// fixedValues: the enumerated list (every non-plain leaf alone, inside an
// array, inside a map, behind each wrapper), deep nesting across the cycle
// detection threshold, and cyclic values. It is what replay re-runs for value
// cases and the fixed probe of every known finding.
func fixedValues() []namedVal {
	var out []namedVal
	for _, l := range nonPlainLeafs() {
		l := l
		out = append(out,
			namedVal{"top:" + l.name, l.mk},
			namedVal{"array:" + l.name, func() ugo.Object { return ugo.Array{ugo.Int(1), l.mk()} }},
			namedVal{"array-first:" + l.name, func() ugo.Object { return ugo.Array{l.mk(), ugo.Int(1)} }},
			namedVal{"array-only:" + l.name, func() ugo.Object { return ugo.Array{l.mk()} }},
			namedVal{"map:" + l.name, func() ugo.Object { return ugo.Map{"a": l.mk(), "b": ugo.Int(1)} }},
			namedVal{"map-last:" + l.name, func() ugo.Object { return ugo.Map{"a": ugo.Int(1), "b": l.mk()} }},
			namedVal{"map-only:" + l.name, func() ugo.Object { return ugo.Map{"a": l.mk()} }},
			namedVal{"map-all:" + l.name, func() ugo.Object { return ugo.Map{"a": l.mk(), "b": l.mk(), "c": l.mk()} }},
			namedVal{"syncmap:" + l.name, func() ugo.Object { return &ugo.SyncMap{Value: ugo.Map{"a": l.mk(), "b": ugo.Int(1)}} }},
			namedVal{"ptr:" + l.name, func() ugo.Object { v := l.mk(); return &ugo.ObjectPtr{Value: &v} }},
			namedVal{"array-ptr:" + l.name, func() ugo.Object { v := l.mk(); return ugo.Array{&ugo.ObjectPtr{Value: &v}, ugo.Int(2)} }},
			namedVal{"quote:" + l.name, func() ugo.Object { return &ugojson.EncoderOptions{Value: l.mk(), Quote: true, EscapeHTML: true} }},
			namedVal{"map-noescape:" + l.name, func() ugo.Object {
				return ugo.Map{"a": &ugojson.EncoderOptions{Value: l.mk()}, "b": ugo.String("<")}
			}},
			namedVal{"deep:" + l.name, func() ugo.Object { return ugo.Array{ugo.Map{"k": ugo.Array{ugo.Map{"x": l.mk(), "y": ugo.Array{}}}}} }},
		)
	}
	for _, r := range rawPool {
		r := r
		out = append(out,
			namedVal{"raw:" + r, func() ugo.Object { return &ugojson.RawMessage{Value: []byte(r)} }},
			namedVal{"array-raw:" + r, func() ugo.Object { return ugo.Array{ugo.Int(1), &ugojson.RawMessage{Value: []byte(r)}} }},
			namedVal{"noescape-raw:" + r, func() ugo.Object {
				return &ugojson.EncoderOptions{Value: ugo.Map{"k": &ugojson.RawMessage{Value: []byte(r)}}}
			}},
		)
	}
	for _, d := range []int{999, 1000, 1001, 1002, 1500, 3000} {
		d := d
		out = append(out,
			namedVal{fmt.Sprintf("nest-array-%d", d), func() ugo.Object { return nestArray(ugo.String("<"), d) }},
			namedVal{fmt.Sprintf("nest-map-%d", d), func() ugo.Object { return nestMap(ugo.Float(1e21), d) }},
			namedVal{fmt.Sprintf("nest-ptr-%d", d), func() ugo.Object {
				var v ugo.Object = ugo.Int(1)
				for i := 0; i < d; i++ {
					w := v
					v = &ugo.ObjectPtr{Value: &w}
				}
				return v
			}},
			namedVal{fmt.Sprintf("nest-array-func-%d", d), func() ugo.Object { return nestArray(ugo.Array{ugo.Int(1), compiledFn}, d) }},
		)
	}
	// cycles through every container kind the encoder counts
	out = append(out,
		namedVal{"cycle-array", func() ugo.Object { a := ugo.Array{ugo.Int(1), nil}; a[1] = a; return a }},
		namedVal{"cycle-map", func() ugo.Object { m := ugo.Map{"a": ugo.Int(1)}; m["b"] = m; return m }},
		namedVal{"cycle-syncmap", func() ugo.Object { m := &ugo.SyncMap{Value: ugo.Map{}}; m.Value["b"] = m; return m }},
		namedVal{"cycle-ptr", func() ugo.Object {
			p := &ugo.ObjectPtr{}
			var m ugo.Object = ugo.Map{"a": p}
			p.Value = &m
			return p
		}},
		namedVal{"cycle-ptr-self", func() ugo.Object {
			p := &ugo.ObjectPtr{}
			var o ugo.Object = p
			p.Value = &o
			return p
		}},
		namedVal{"cycle-opts-array", func() ugo.Object {
			eo := &ugojson.EncoderOptions{Quote: true}
			eo.Value = ugo.Array{eo}
			return eo
		}},
		namedVal{"cycle-map-array", func() ugo.Object {
			m := ugo.Map{}
			m["a"] = ugo.Array{ugo.Map{"m": m}}
			return m
		}},
	)
	return out
}

// ------------------------------------------------------------- documents ---

var numPool = []string{
	"0", "-0", "1", "-1", "10", "0.1", "-0.0", "0e0", "0E+0", "1E5", "1e+5", "1e-5", "1.0", "100e-2", "0.30000000000000004",
	"1e308", "1.7976931348623157e308", "1.7976931348623158e308", "1.7976931348623159e308", "1e309", "-1e309", "1e400", "-1e999",
	"5e-324", "4.9e-324", "2.4703282292062327e-324", "2.4703282292062328e-324", "2e-324", "3e-324", "1e-400", "-1e-400",
	"2.2250738585072014e-308", "2.2250738585072011e-308", "123456789012345678901234567890", "9007199254740993", "9223372036854775807",
	"9223372036854775808", "18446744073709551616", "-9223372036854775809", "1e21", "1e-7", "0.000001", "1e22", "1e23",
	"0.1e1", "1.5e0", "12.50", "1e00", "1e-00", "1e0000000000000000000001", "0." + strings.Repeat("0", 400) + "1", "1" + strings.Repeat("0", 400),
	"1" + strings.Repeat("0", 400) + "e-400", "0.000000000000000000000000000000000000000000001e45",
}

var badNums = []string{"01", "-01", "1.", ".5", "+1", "1e", "1e+", "-", "--1", "0x10", "1_0", "1.e1", "1e1.5", "NaN", "Infinity", "-Infinity", "1f", "00", "-.1", "1E", "0e", "١"}

var strOK = []string{
	`a`, `b`, `abc`, ` `, `0`, `k`, `\"`, `\\`, `\/`, `\b`, `\f`, `\n`, `\r`, `\t`, `\u0000`, `\u001f`, `\u0041`,
	`\u00e9`, `\u00E9`, `\u2028`, `\u2029`, `\u0022`, `\u005c`, `\u005C`, `\ufffd`, `\uffff`, `\ufffe`, `\uFFFF`,
	`\u0080`, `\ud7ff`, `\ue000`, `\ud83d\ude00`, `\uD83D\uDE00`, `\ud800`, `\udc00`, `\udfff`, `\ud800\u0041`, `\ud800\ud800`,
	`\udbff\udfff`, `\ud800\udbff`, `\ud800\udc00`, `\udc00\ud800`, `\ud83d\\ude00`, `\ud83d \ude00`, `\ud83d\n`,
	`\ud83dx`, `\udbff\ue000`, `\ud800\udc00\udc00`,
	"é", "日本", "\xe2\x80\xa8", "\xe2\x80\xa9", "\U0001F600", "\xef\xbf\xbd", "<", ">", "&", "\x7f", "\xff", "\xc0\x80", "\xe2\x80", "\xed\xa0\x80",
	"\xf4\x90\x80\x80", "\xf0\x9f", "\xc2\xa0", "\xef\xbb\xbf", "'", "/", "{", "}", "[", "]", ",", ":", "null", "//",
}

var strBad = []string{"\x00", "\x1f", "\n", "\t", "\r", `\'`, `\x41`, `\u12G4`, `\u123`, `\U00000041`, `\a`, `\v`, `\0`, `\u`, `\ `, `\u+123`, `\u-123`}

var wsOK = []string{"", "", "", "", " ", "\n", "\t", "\r", " \n\t\r ", "  "}
var wsBad = []string{"\v", "\f", "\xc2\xa0", "\xef\xbb\xbf", "\xe2\x80\xa8", "\x00", "//c\n", "/* c */", "\x85"}

var keyPool = []string{``, `a`, `a`, `b`, `k`, `a b`, `\u0061`, `é`, `\u00e9`, `\ufffd`, `<k>`, `\ud800`, `\u0041`, `A`, "\xff"}

type docGen struct {
	t      *rapid.T
	buf    bytes.Buffer
	budget int
	bad    int // number of deliberately invalid pieces still to inject
	label  string
}

func (g *docGen) pick(label string, pool []string) string {
	return pool[rapid.IntRange(0, len(pool)-1).Draw(g.t, g.label+label)]
}

func (g *docGen) coin(label string, oneIn int) bool {
	return rapid.IntRange(0, oneIn-1).Draw(g.t, g.label+label) == 0
}

func (g *docGen) ws() {
	if g.bad > 0 && g.coin("badws", 12) {
		g.bad--
		g.buf.WriteString(g.pick("wsbad", wsBad))
		return
	}
	g.buf.WriteString(g.pick("ws", wsOK))
}

func (g *docGen) str(keys bool) {
	g.buf.WriteByte('"')
	if keys && g.coin("poolkey", 2) {
		g.buf.WriteString(g.pick("key", keyPool))
	} else {
		n := rapid.IntRange(0, 4).Draw(g.t, g.label+"slen")
		for i := 0; i < n; i++ {
			if g.bad > 0 && g.coin("badstr", 6) {
				g.bad--
				g.buf.WriteString(g.pick("strbad", strBad))
				continue
			}
			if g.coin("uescape", 4) {
				g.uEscape()
				continue
			}
			g.buf.WriteString(g.pick("piece", strOK))
		}
	}
	g.buf.WriteByte('"')
}

// hex digits at both ends of each of the three ranges, and the characters just outside them
var hexOK = []string{"0", "9", "a", "f", "A", "F", "1", "8", "b", "e", "B", "E", "5", "c", "D"}
var hexBad = []string{"/", ":", "`", "g", "@", "G", " ", "-", "x"}

// uEscape writes a \uXXXX escape whose four digits are drawn per position (sometimes one of them is
// a character adjacent to a hex range, which makes the document invalid).
func (g *docGen) uEscape() {
	badAt := -1
	if g.bad > 0 && g.coin("baduescape", 5) {
		g.bad--
		badAt = rapid.IntRange(0, 3).Draw(g.t, g.label+"badhexat")
	}
	g.buf.WriteString(`\u`)
	for i := 0; i < 4; i++ {
		if i == badAt {
			g.buf.WriteString(g.pick("hexbad", hexBad))
			continue
		}
		g.buf.WriteString(g.pick("hex", hexOK))
	}
}

func (g *docGen) num() {
	if g.bad > 0 && g.coin("badnum", 4) {
		g.bad--
		g.buf.WriteString(g.pick("numbad", badNums))
		return
	}
	if g.coin("poolnum", 2) {
		g.buf.WriteString(g.pick("num", numPool))
		return
	}
	if g.coin("neg", 3) {
		g.buf.WriteByte('-')
	}
	fmt.Fprintf(&g.buf, "%d", rapid.Uint64().Draw(g.t, g.label+"int")>>uint(rapid.IntRange(0, 63).Draw(g.t, g.label+"shift")))
	if g.coin("frac", 2) {
		fmt.Fprintf(&g.buf, ".%d", rapid.IntRange(0, 999999).Draw(g.t, g.label+"fracd"))
	}
	if g.coin("exp", 2) {
		g.buf.WriteString(g.pick("e", []string{"e", "E", "e+", "e-", "E+", "E-"}))
		fmt.Fprintf(&g.buf, "%d", rapid.IntRange(0, 330).Draw(g.t, g.label+"expd"))
	}
}

func (g *docGen) value(depth int) {
	g.budget--
	kinds := []string{"null", "true", "false", "num", "num", "str", "str"}
	if depth < 8 && g.budget > 0 {
		kinds = append(kinds, "arr", "obj", "arr", "obj")
	}
	switch g.pick("vkind", kinds) {
	case "null":
		if g.bad > 0 && g.coin("badlit", 6) {
			g.bad--
			g.buf.WriteString(g.pick("lit", []string{"nul", "Null", "nulll", "NULL", "undefined", "nil", "tru", "True", "fals", "falsee", "truefalse"}))
			return
		}
		g.buf.WriteString("null")
	case "true":
		g.buf.WriteString("true")
	case "false":
		g.buf.WriteString("false")
	case "num":
		g.num()
	case "str":
		g.str(false)
	case "arr":
		g.buf.WriteByte('[')
		n := rapid.IntRange(0, 4).Draw(g.t, g.label+"alen")
		for i := 0; i < n; i++ {
			if i > 0 {
				g.buf.WriteByte(',')
			}
			g.ws()
			g.value(depth + 1)
			g.ws()
		}
		if n == 0 {
			g.ws()
		} else if g.bad > 0 && g.coin("trailcomma", 6) {
			g.bad--
			g.buf.WriteByte(',')
		}
		g.buf.WriteByte(']')
	case "obj":
		g.buf.WriteByte('{')
		n := rapid.IntRange(0, 4).Draw(g.t, g.label+"olen")
		for i := 0; i < n; i++ {
			if i > 0 {
				g.buf.WriteByte(',')
			}
			g.ws()
			if g.bad > 0 && g.coin("badkey", 8) {
				g.bad--
				g.buf.WriteString(g.pick("bk", []string{"a", "'a'", "1", "null", "[1]", ""}))
			} else {
				g.str(true)
			}
			g.ws()
			if g.bad > 0 && g.coin("nocolon", 8) {
				g.bad--
				g.buf.WriteString(g.pick("colon", []string{"", "=", "::", ","}))
			} else {
				g.buf.WriteByte(':')
			}
			g.ws()
			g.value(depth + 1)
			g.ws()
		}
		if n == 0 {
			g.ws()
		}
		g.buf.WriteByte('}')
	}
}

// genValidDoc: a document of the JSON grammar (as encoding/json reads it):
// whitespace everywhere it is allowed, duplicate keys, every escape, valid and
// invalid surrogates, raw invalid UTF-8, numbers at the float limits, and
// occasionally a few hundred levels of nesting. With bad > 0 that many
// deliberately invalid pieces may be injected (near-valid documents).
func genGrammarDoc(t *rapid.T, label string, bad int) []byte {
	g := &docGen{t: t, budget: rapid.IntRange(1, 40).Draw(t, label+"budget"), bad: bad, label: label}
	g.ws()
	wrap := 0
	if g.coin("deep", 10) {
		wrap = rapid.SampledFrom([]int{1, 2, 10, 100, 300}).Draw(t, label+"wrap")
	}
	shape := make([]bool, wrap)
	for i := range shape {
		shape[i] = i%3 == 1
	}
	for _, obj := range shape {
		if obj {
			g.buf.WriteString(`{"a":`)
		} else {
			g.buf.WriteByte('[')
		}
	}
	g.value(0)
	for i := len(shape) - 1; i >= 0; i-- {
		if shape[i] {
			g.buf.WriteByte('}')
		} else {
			g.buf.WriteByte(']')
		}
	}
	g.ws()
	return append([]byte(nil), g.buf.Bytes()...)
}

func genDoc(t *rapid.T, label string) []byte { return genGrammarDoc(t, label, 0) }

var insertBytes = []byte("\"\\,:{}[]0123456789eE-+. \n\ttrufalsn'/*\x00\x1f\x7f\x80\xff\xe2\xc0\xed")

// mutate applies one edit (delete / insert / replace a byte, truncate,
// duplicate or drop a slice) to a document.
func mutate(t *rapid.T, d []byte) ([]byte, string) {
	out := append([]byte(nil), d...)
	ops := []string{"delete", "insert", "replace", "truncate", "dup-slice", "drop-slice", "insert-any", "replace-any", "truncate-in-rune", "truncate-in-rune"}
	if len(d) == 0 {
		ops = []string{"insert", "insert-any"}
	}
	op := rapid.SampledFrom(ops).Draw(t, "mutop")
	pos := 0
	if len(d) > 0 {
		pos = rapid.IntRange(0, len(d)-1).Draw(t, "mutpos")
	}
	switch op {
	case "delete":
		out = append(out[:pos], out[pos+1:]...)
	case "insert", "insert-any":
		var b byte
		if op == "insert" {
			b = insertBytes[rapid.IntRange(0, len(insertBytes)-1).Draw(t, "mutbyte")]
		} else {
			b = rapid.Byte().Draw(t, "mutanybyte")
		}
		at := pos
		if len(d) > 0 && rapid.Bool().Draw(t, "after") {
			at = pos + 1
		}
		out = append(out[:at], append([]byte{b}, out[at:]...)...)
	case "replace":
		out[pos] = insertBytes[rapid.IntRange(0, len(insertBytes)-1).Draw(t, "mutbyte")]
	case "replace-any":
		out[pos] = rapid.Byte().Draw(t, "mutanybyte")
	case "truncate":
		out = out[:pos]
	case "truncate-in-rune":
		// the document ends in the middle of a multi-byte character (code that looks ahead for
		// particular byte sequences reads past the end here)
		var cuts []int
		for i, b := range d {
			if b >= 0x80 && b <= 0xbf {
				cuts = append(cuts, i)
			}
		}
		if len(cuts) == 0 {
			d2 := append(append([]byte(nil), d[:pos]...), []byte("\"\xe2\x80\xa8x\"")...)
			out = d2[:len(d2)-3+rapid.IntRange(0, 1).Draw(t, "cutlsep")]
		} else {
			out = out[:cuts[rapid.IntRange(0, len(cuts)-1).Draw(t, "cutat")]]
		}
	case "dup-slice":
		end := rapid.IntRange(pos, len(d)).Draw(t, "mutend")
		out = append(out[:end], append(append([]byte(nil), d[pos:end]...), d[end:]...)...)
	case "drop-slice":
		end := rapid.IntRange(pos, len(d)).Draw(t, "mutend")
		out = append(out[:pos], d[end:]...)
	}
	return out, op
}

var jsonAlphabet = []byte("[]{}:,\"\\ \n0123456789.-+eEtrufalsn/bd\xff\xe2\x80\xa8")

func genArbitrary(t *rapid.T) []byte {
	if rapid.Bool().Draw(t, "alphabet") {
		n := rapid.IntRange(0, 14).Draw(t, "alen")
		out := make([]byte, n)
		for i := range out {
			out[i] = jsonAlphabet[rapid.IntRange(0, len(jsonAlphabet)-1).Draw(t, "ab")]
		}
		return out
	}
	b := rapid.SliceOfN(rapid.Byte(), 0, 40).Draw(t, "raw")
	if b == nil {
		b = []byte{}
	}
	return b
}

var indentPool = []string{"", "", " ", "\t", "  ", "    ", "\n", "\r\n", ">", "ab", "\"", "é", "\xff", "//", "\\", "{", " \t "}

func nestDoc(open, close, core string, n int) []byte {
	return []byte(strings.Repeat(open, n) + core + strings.Repeat(close, n))
}

// smallDocs: the enumerated valid and near-valid documents (also the seeds of
// the fuzz targets).
var smallDocs = []string{
	// valid
	`null`, `true`, ` false `, `0`, `-0`, `1e308`, `[]`, `{}`, `[1,2]`, `{"a":1,"a":2}`, `{"a":{"x":1},"a":{"y":2}}`, `"\ud83d\ude00"`, `"😀"`, `"\ud800"`,
	`"\udc00\ud800"`, `"\u0000"`, `{"a":{"b":[1,{"c":null}]}}`, `[1e-7,1e21,5e-324,2e-324,1.7976931348623157e308]`, " \n[ 1 , 2 ]\t", `"<>&\u2028"`,
	"\"\xff\"", "\"\xe2\x80\xa8<\xe2\x80\xa9\"", `{"":""}`, `[[],{}]`, `{"a":[],"b":{}}`, `"\/\b\f\n\r\t\"\\"`, `[null,true,false]`, `-1.5E+3`,
	"{\r\n\t\"k\" :\t[ ]\r\n}\n", `"\u00e9é\u00E9"`, `[0.1e1,100e-2,1E0]`, "[1]\n", "[1] \n\n", "\n\n{}", `{"\ud800":"\udfff"}`, "\"\x7f\"",
	// rejected by both (syntax) or by Unmarshal only (range)
	`1e309`, `-1e999`, `[1,1e400]`, `{"a":1e400,"b":2}`,
	`[1,]`, `{"a":}`, `{"a" 1}`, `{a:1}`, `'a'`, `01`, `1.`, `.5`, `+1`, `1e`, `-`, `tru`, `nul`, `NaN`, `[1 2]`, `1 2`, ``, ` `, `"abc`, `"\x"`, `"\u12"`,
	"\"\n\"", `[`, `]`, `{"a":1,}`, "\xef\xbb\xbf1", "//c\n1", `[1]]`, `{"a":1}}`, `"a" "b"`, `nulll`, `truefalse`, `-01`, `1e+`, `0x10`, `1_0`, `"\'"`,
	`{"a":1 "b":2}`, `{"a"::1}`, `[,1]`, `{,}`, `{"a":1,,"b":2}`, `"\ud83d\ude0"`, "\x00", "[\x00]", "\"\x00\"", "\"\x1f\"", `{"a":[}`, `[{"a":]}]`, "1\v", "\f1",
	"\xef\xbb\xbf[]", `nullx`, `[1]x`, `{} {}`, `[] []`, `1,`, `:`, `,`, `"`, `\`, `{"a"`, `{"a":`, `{"a":1`, `[1`, `[1,`, `-`, `-e1`, `1e-`, `0.`, `0.e1`, `00`, `0e`,
}

func fixedDocs() [][]byte {
	var out [][]byte
	for _, s := range smallDocs {
		out = append(out, []byte(s))
	}
	for _, n := range numPool {
		out = append(out, []byte(n), []byte("["+n+"]"), []byte(`{"n":`+n+`}`))
	}
	for _, n := range badNums {
		out = append(out, []byte(n), []byte("["+n+"]"))
	}
	for _, s := range strOK {
		out = append(out, []byte(`"`+s+`"`), []byte(`{"`+s+`":"`+s+`"}`))
	}
	for _, s := range strBad {
		out = append(out, []byte(`"`+s+`"`), []byte(`{"`+s+`":1}`))
	}
	for _, w := range append(append([]string{}, wsOK...), wsBad...) {
		out = append(out, []byte(w+"1"), []byte("1"+w), []byte("["+w+"]"), []byte("[1"+w+",2]"), []byte(`{"a"`+w+":"+w+"1}"))
	}
	// nesting around the scanner limit (maxNestingDepth = 10000)
	for _, n := range []int{9999, 10000, 10001, 10002} {
		out = append(out,
			nestDoc("[", "]", "", n),
			nestDoc("[", "]", "1", n-1),
			nestDoc(`{"a":`, "}", "null", n),
			nestDoc(`[{"a":`, "}]", `"x"`, n/2),
			nestDoc(`[{"a":`, "}]", `"x"`, n/2+1),
			nestDoc(" [ ", " ] ", " ", n),
			[]byte(strings.Repeat("[", n)),
			[]byte(strings.Repeat(`{"a":`, n)),
			append(nestDoc("[", "]", "", n), ']'),
		)
	}
	return out
}
