// C17 - the json module produces and accepts exactly standard JSON.
//
// oracle_test.go: the differential oracles (pure functions from an input to a
// list of findings) shared by the rapid properties, the enumerated corpus, the
// native fuzz targets and the replay mode.
package c17

import (
	"bytes"
	"encoding/base64"
	"encoding/json"
	"fmt"
	"math"
	"sort"
	"unicode/utf8"

	"github.com/ozanh/ugo"
	ugojson "github.com/ozanh/ugo/stdlib/json"

	"verif/internal/canon"
)

// finding is one disagreement with the property; Sig names the root cause.
type finding struct {
	Sig  string
	What string
}

// safe runs f and converts a panic into a string.
func safe(f func()) (p string) {
	defer func() {
		if r := recover(); r != nil {
			p = fmt.Sprint(r)
			if p == "" {
				p = "panic"
			}
		}
	}()
	f()
	return ""
}

func trunc(s string) string {
	if len(s) > 300 {
		return s[:300] + fmt.Sprintf("...(%d bytes)", len(s))
	}
	return s
}

func q(b []byte) string { return trunc(fmt.Sprintf("%q", b)) }

// ---- script-visible module functions, called through their Go adapters ----

func modFn(name string) ugo.CallableFunc {
	f, ok := ugojson.Module[name].(*ugo.Function)
	if !ok || f.Value == nil {
		panic("json module has no function " + name)
	}
	return f.Value
}

// callBytes calls a module function that returns bytes or an error object.
// bad != "" reports an adapter level problem (wrong result type, call error).
func callBytes(name string, args ...ugo.Object) (out []byte, rejected bool, bad string) {
	var ret ugo.Object
	var err error
	if p := safe(func() { ret, err = modFn(name)(args...) }); p != "" {
		return nil, false, "panic: " + p
	}
	if err != nil {
		return nil, false, "call error: " + err.Error()
	}
	switch r := ret.(type) {
	case ugo.Bytes:
		return []byte(r), false, ""
	case *ugo.Error:
		return nil, true, ""
	}
	return nil, false, fmt.Sprintf("unexpected result %T", ret)
}

// ---- structural comparison uGO value <-> encoding/json `any` result ----

// diffObjGo returns "" when u is the uGO counterpart of g (what ugo.ToObject
// documents for nil, bool, float64, string, []any, map[string]any; floats
// bit-wise), else the kind of the first differing node.
func diffObjGo(u ugo.Object, g any) string {
	switch x := g.(type) {
	case nil:
		if u != ugo.Undefined {
			return "null"
		}
	case bool:
		y, ok := u.(ugo.Bool)
		if !ok || bool(y) != x {
			return "bool"
		}
	case float64:
		y, ok := u.(ugo.Float)
		if !ok || math.Float64bits(float64(y)) != math.Float64bits(x) {
			return "number"
		}
	case string:
		y, ok := u.(ugo.String)
		if !ok || string(y) != x {
			return "string"
		}
	case []any:
		y, ok := u.(ugo.Array)
		if !ok {
			return "array"
		}
		if len(x) != len(y) {
			return "array-length"
		}
		for i := range x {
			if k := diffObjGo(y[i], x[i]); k != "" {
				return k
			}
		}
	case map[string]any:
		y, ok := u.(ugo.Map)
		if !ok {
			return "object"
		}
		if len(x) != len(y) {
			return "object-keys"
		}
		for k, e := range x {
			w, ok := y[k]
			if !ok {
				return "object-keys"
			}
			if kk := diffObjGo(w, e); kk != "" {
				return kk
			}
		}
	default:
		return "type"
	}
	return ""
}

// eqObj: independent structural equality of two uGO values (bit-wise floats).
func eqObj(a, b ugo.Object) bool {
	switch x := a.(type) {
	case ugo.Float:
		y, ok := b.(ugo.Float)
		return ok && math.Float64bits(float64(x)) == math.Float64bits(float64(y))
	case ugo.Bool:
		y, ok := b.(ugo.Bool)
		return ok && x == y
	case ugo.String:
		y, ok := b.(ugo.String)
		return ok && x == y
	case *ugo.UndefinedType:
		return b == ugo.Undefined
	case ugo.Array:
		y, ok := b.(ugo.Array)
		if !ok || len(x) != len(y) {
			return false
		}
		for i := range x {
			if !eqObj(x[i], y[i]) {
				return false
			}
		}
		return true
	case ugo.Map:
		y, ok := b.(ugo.Map)
		if !ok || len(x) != len(y) {
			return false
		}
		for k, v := range x {
			w, ok := y[k]
			if !ok || !eqObj(v, w) {
				return false
			}
		}
		return true
	}
	return false
}

// ---- oracle B + D: documents ----

type docInfo struct {
	StdAccepts bool // encoding/json.Unmarshal into any accepts
	StdValid   bool // encoding/json.Valid
	UgoAccepts bool
}

// checkDoc applies Unmarshal / Valid / Compact / Indent differentials to data.
func checkDoc(data []byte, prefix, indent string) (fs []finding, info docInfo) {
	return checkDocOpt(data, prefix, indent, false)
}

// checkDocOpt: noIndent skips the Indent differential (both implementations
// are quadratic in the nesting depth, see newline / appendNewline).
func checkDocOpt(data []byte, prefix, indent string, noIndent bool) (fs []finding, info docInfo) {
	add := func(sig, format string, args ...any) {
		fs = append(fs, finding{sig, fmt.Sprintf(format, args...)})
	}
	orig := append([]byte(nil), data...)
	in := func() []byte { return append([]byte{}, orig...) }

	// Unmarshal
	var sv any
	serr := json.Unmarshal(in(), &sv)
	info.StdAccepts = serr == nil
	var uv ugo.Object
	var uerr error
	ubuf := in()
	if p := safe(func() { uv, uerr = ugojson.Unmarshal(ubuf) }); p != "" {
		add("unmarshal:panic", "Unmarshal(%s) panicked: %s (encoding/json err=%v)", q(orig), p, serr)
	} else {
		info.UgoAccepts = uerr == nil
		switch {
		case !bytes.Equal(ubuf, orig):
			add("unmarshal:input-mutated", "Unmarshal modified its input %s -> %s", q(orig), q(ubuf))
		case serr == nil && uerr != nil:
			add("unmarshal:accept-mismatch:ugo-rejects", "Unmarshal(%s): ugo err=%v, encoding/json accepts", q(orig), uerr)
		case serr != nil && uerr == nil:
			add("unmarshal:accept-mismatch:ugo-accepts", "Unmarshal(%s): ugo accepts (%s), encoding/json err=%v", q(orig), trunc(canon.Value(uv)), serr)
		case serr == nil:
			if uv == nil {
				add("unmarshal:value-differs:nil", "Unmarshal(%s) returned a nil Object", q(orig))
			} else if k := diffObjGo(uv, sv); k != "" {
				add("unmarshal:value-differs:"+k, "Unmarshal(%s): ugo=%s encoding/json=%s", q(orig), trunc(canon.Value(uv)), trunc(fmt.Sprintf("%#v", sv)))
			}
		}
	}

	fs = append(fs, checkIndentCompactOpt(orig, prefix, indent, &info, noIndent)...)
	return fs, info
}

// checkIndentCompact applies the Valid / Compact / Indent differentials (D)
// through the script-visible module functions.
func checkIndentCompact(orig []byte, prefix, indent string, info *docInfo) (fs []finding) {
	return checkIndentCompactOpt(orig, prefix, indent, info, false)
}

func checkIndentCompactOpt(orig []byte, prefix, indent string, info *docInfo, noIndent bool) (fs []finding) {
	add := func(sig, format string, args ...any) {
		fs = append(fs, finding{sig, fmt.Sprintf(format, args...)})
	}
	in := func() ugo.Bytes { return append(ugo.Bytes{}, orig...) }

	// Valid
	sValid := json.Valid(orig)
	if info != nil {
		info.StdValid = sValid
	}
	var ret ugo.Object
	var err error
	if p := safe(func() { ret, err = modFn("Valid")(in()) }); p != "" {
		add("valid:panic", "Valid(%s) panicked: %s", q(orig), p)
	} else if b, ok := ret.(ugo.Bool); err != nil || !ok {
		add("valid:adapter", "Valid(%s) returned %v, %v", q(orig), ret, err)
	} else if bool(b) != sValid {
		add("valid:differs", "Valid(%s) = %v, encoding/json.Valid = %v", q(orig), bool(b), sValid)
	}

	// Compact(escape=false) vs encoding/json.Compact
	var sb bytes.Buffer
	scerr := json.Compact(&sb, orig)
	ub, urej, bad := callBytes("Compact", in(), ugo.False)
	switch {
	case bad != "":
		add("compact:adapter", "Compact(%s,false): %s", q(orig), bad)
	case urej != (scerr != nil):
		add("compact:accept-mismatch", "Compact(%s,false): ugo rejected=%v, encoding/json err=%v", q(orig), urej, scerr)
	case scerr == nil && !bytes.Equal(ub, sb.Bytes()):
		add("compact:bytes-differ", "Compact(%s,false): ugo=%s encoding/json=%s", q(orig), q(ub), q(sb.Bytes()))
	}

	// Compact(escape=true) vs HTMLEscape(Compact)
	ub, urej, bad = callBytes("Compact", in(), ugo.True)
	switch {
	case bad != "":
		add("compact-escape:adapter", "Compact(%s,true): %s", q(orig), bad)
	case urej != (scerr != nil):
		add("compact-escape:accept-mismatch", "Compact(%s,true): ugo rejected=%v, encoding/json err=%v", q(orig), urej, scerr)
	case scerr == nil:
		var hb bytes.Buffer
		json.HTMLEscape(&hb, sb.Bytes())
		if !bytes.Equal(ub, hb.Bytes()) {
			add("compact-escape:bytes-differ", "Compact(%s,true): ugo=%s HTMLEscape(Compact)=%s", q(orig), q(ub), q(hb.Bytes()))
		}
	}

	// Indent
	if noIndent {
		return fs
	}
	var ib bytes.Buffer
	sierr := json.Indent(&ib, orig, prefix, indent)
	ub, urej, bad = callBytes("Indent", in(), ugo.String(prefix), ugo.String(indent))
	switch {
	case bad != "":
		add("indent:adapter", "Indent(%s,%q,%q): %s", q(orig), prefix, indent, bad)
	case urej != (sierr != nil):
		add("indent:accept-mismatch", "Indent(%s,%q,%q): ugo rejected=%v, encoding/json err=%v", q(orig), prefix, indent, urej, sierr)
	case sierr == nil && !bytes.Equal(ub, ib.Bytes()):
		add("indent:bytes-differ", "Indent(%s,%q,%q): ugo=%s encoding/json=%s", q(orig), prefix, indent, q(ub), q(ib.Bytes()))
	}
	return fs
}

// ---- oracle A: values ----

// isPlain reports whether v is made only of the plain types the property
// names (maps, arrays, strings, bytes, bools, numbers, chars, undefined).
// Nil containers (a Go level artefact no script can build) are not plain.
func isPlain(v ugo.Object) bool {
	switch x := v.(type) {
	case ugo.Int, ugo.Uint, ugo.Float, ugo.Bool, ugo.Char, ugo.String, *ugo.UndefinedType:
		return true
	case ugo.Bytes:
		return x != nil
	case ugo.Array:
		if x == nil {
			return false
		}
		for _, e := range x {
			if !isPlain(e) {
				return false
			}
		}
		return true
	case ugo.Map:
		if x == nil {
			return false
		}
		for _, e := range x {
			if !isPlain(e) {
				return false
			}
		}
		return true
	}
	return false
}

func leafKind(v ugo.Object) string {
	switch v.(type) {
	case ugo.String:
		return "string-escape"
	case ugo.Float:
		return "float"
	case ugo.Int:
		return "int"
	case ugo.Uint:
		return "uint"
	case ugo.Char:
		return "char"
	case ugo.Bytes:
		return "bytes"
	case ugo.Bool:
		return "bool"
	case *ugo.UndefinedType:
		return "undefined"
	}
	return v.TypeName()
}

// marshalBoth marshals a plain value on both sides. noEsc selects the
// "do not escape HTML" variant: the module's NoEscape wrapper against an
// encoding/json Encoder with SetEscapeHTML(false).
func marshalBoth(v ugo.Object, noEsc bool) (ub []byte, uerr error, sb []byte, serr error, p string) {
	if noEsc {
		p = safe(func() { ub, uerr = ugojson.Marshal(&ugojson.EncoderOptions{Value: v}) })
		var nb bytes.Buffer
		enc := json.NewEncoder(&nb)
		enc.SetEscapeHTML(false)
		serr = enc.Encode(ugo.ToInterface(v))
		sb = bytes.TrimSuffix(nb.Bytes(), []byte("\n"))
		return
	}
	p = safe(func() { ub, uerr = ugojson.Marshal(v) })
	sb, serr = json.Marshal(ugo.ToInterface(v))
	return
}

// plainCause finds the kind of the first leaf / key of a plain value that the
// two encoders treat differently on its own ("structure" if none does).
func plainCause(v ugo.Object, depth int, noEsc bool) string {
	if depth > 2000 {
		return ""
	}
	differs := func(o ugo.Object) bool {
		ub, uerr, sb, serr, p := marshalBoth(o, noEsc)
		return p != "" || (uerr == nil) != (serr == nil) || (uerr == nil && !bytes.Equal(ub, sb))
	}
	switch x := v.(type) {
	case ugo.Array:
		for _, e := range x {
			if c := plainCause(e, depth+1, noEsc); c != "" {
				return c
			}
		}
		return ""
	case ugo.Map:
		keys := make([]string, 0, len(x))
		for k := range x {
			keys = append(keys, k)
		}
		sort.Strings(keys)
		for _, k := range keys {
			if differs(ugo.String(k)) {
				return strCause(k, differs)
			}
			if differs(ugo.Map{k: ugo.Int(0)}) {
				return "map-key"
			}
			if c := plainCause(x[k], depth+1, noEsc); c != "" {
				return c
			}
		}
		return ""
	}
	if differs(v) {
		if str, ok := v.(ugo.String); ok {
			return strCause(string(str), differs)
		}
		return leafKind(v)
	}
	return ""
}

// strCause names the class of the first rune of s that the two encoders
// escape differently.
func strCause(s string, differs func(ugo.Object) bool) string {
	for i := 0; i < len(s); {
		r, size := utf8.DecodeRuneInString(s[i:])
		seg := s[i : i+size]
		i += size
		if !differs(ugo.String(seg)) {
			continue
		}
		switch {
		case seg == "\b" || seg == "\f":
			return "string-escape:backspace-formfeed"
		case seg == "<" || seg == ">" || seg == "&":
			return "string-escape:html"
		case seg == "\"" || seg == "\\":
			return "string-escape:quote-backslash"
		case r < 0x20:
			return "string-escape:control"
		case r == utf8.RuneError && size == 1:
			return "string-escape:invalid-utf8"
		case r == 0x2028 || r == 0x2029:
			return "string-escape:line-separator"
		}
		return "string-escape:other"
	}
	return "string-escape"
}

// checkPlain: Marshal / MarshalIndent of a plain value agree byte for byte
// (and error for error) with encoding/json on ugo.ToInterface(v).
func checkPlain(v ugo.Object, prefix, indent string) (fs []finding, out []byte) {
	add := func(sig, format string, args ...any) {
		fs = append(fs, finding{sig, fmt.Sprintf(format, args...)})
	}
	noEsc := false
	cause := func() string {
		if c := plainCause(v, 0, noEsc); c != "" {
			return c
		}
		return "structure"
	}
	dump := trunc(dumpV(v))
	ub, uerr, sb, serr, p := marshalBoth(v, false)
	switch {
	case p != "":
		add("marshal:panic:"+cause(), "Marshal(%s) panicked: %s", dump, p)
		return fs, nil
	case uerr == nil && serr != nil:
		add("marshal:error-mismatch:ugo-accepts:"+cause(), "Marshal(%s) = %s, encoding/json err=%v", dump, q(ub), serr)
	case uerr != nil && serr == nil:
		add("marshal:error-mismatch:ugo-rejects:"+cause(), "Marshal(%s) err=%v, encoding/json = %s", dump, uerr, q(sb))
	case uerr == nil && !bytes.Equal(ub, sb):
		add("marshal:bytes-differ:"+cause(), "Marshal(%s): ugo=%s encoding/json=%s", dump, q(ub), q(sb))
	}
	if uerr == nil {
		out = ub
	}

	// the NoEscape option against Encoder.SetEscapeHTML(false); reported only
	// when the default encoding agreed (else it is the same root cause)
	if len(fs) == 0 {
		noEsc = true
		nub, nuerr, nsb, nserr, np := marshalBoth(v, true)
		switch {
		case np != "":
			add("marshal-noescape:panic:"+cause(), "Marshal(NoEscape(%s)) panicked: %s", dump, np)
		case (nuerr == nil) != (nserr == nil):
			add("marshal-noescape:error-mismatch:"+cause(), "Marshal(NoEscape(%s)): ugo err=%v, encoding/json (SetEscapeHTML(false)) err=%v", dump, nuerr, nserr)
		case nuerr == nil && !bytes.Equal(nub, nsb):
			add("marshal-noescape:bytes-differ:"+cause(), "Marshal(NoEscape(%s)): ugo=%s encoding/json (SetEscapeHTML(false))=%s", dump, q(nub), q(nsb))
		}
		noEsc = false
		if len(fs) > 0 {
			return fs, out
		}
	}

	var ui []byte
	var uierr error
	if p := safe(func() { ui, uierr = ugojson.MarshalIndent(v, prefix, indent) }); p != "" {
		add("marshalindent:panic", "MarshalIndent(%s,%q,%q) panicked: %s", dump, prefix, indent, p)
		return fs, out
	}
	si, sierr := json.MarshalIndent(ugo.ToInterface(v), prefix, indent)
	switch {
	case (uierr == nil) != (sierr == nil):
		add("marshalindent:error-mismatch", "MarshalIndent(%s,%q,%q): ugo err=%v encoding/json err=%v", dump, prefix, indent, uierr, sierr)
	case uierr == nil && !bytes.Equal(ui, si):
		// only a separate root cause when Marshal itself agreed
		if len(fs) == 0 {
			add("marshalindent:bytes-differ", "MarshalIndent(%s,%q,%q): ugo=%s encoding/json=%s", dump, prefix, indent, q(ui), q(si))
		}
	}
	return fs, out
}

// unwrap strips the transparent wrappers (options, pointer) from v.
func unwrap(v ugo.Object) ugo.Object {
	for i := 0; i < 64; i++ {
		switch x := v.(type) {
		case *ugojson.EncoderOptions:
			if x == nil || x.Value == nil {
				return v
			}
			v = x.Value
		case *ugo.ObjectPtr:
			if x == nil || x.Value == nil || *x.Value == nil {
				return v
			}
			v = *x.Value
		default:
			return v
		}
	}
	return v
}

// nonPlainLeaves collects the non-container, non-plain leaves of v by type name.
func nonPlainLeaves(v ugo.Object, depth int, out map[string]ugo.Object) {
	if depth > 100000 || v == nil {
		return
	}
	switch x := unwrap(v).(type) {
	case ugo.Array:
		for _, e := range x {
			nonPlainLeaves(e, depth+1, out)
		}
	case ugo.Map:
		for _, e := range x {
			nonPlainLeaves(e, depth+1, out)
		}
	case *ugo.SyncMap:
		if x != nil {
			for _, e := range x.Value {
				nonPlainLeaves(e, depth+1, out)
			}
		}
	default:
		if x != nil && !isPlain(x) {
			if _, ok := out[x.TypeName()]; !ok {
				out[x.TypeName()] = x
			}
		}
	}
}

// offender names the type of a leaf of v that, alone inside an array, makes
// Marshal emit an invalid document ("" when no single leaf does).
func offender(v ugo.Object) string {
	leaves := map[string]ugo.Object{}
	nonPlainLeaves(v, 0, leaves)
	names := make([]string, 0, len(leaves))
	for n := range leaves {
		names = append(names, n)
	}
	sort.Strings(names)
	for _, n := range names {
		var b []byte
		var err error
		p := safe(func() { b, err = ugojson.Marshal(ugo.Array{ugo.Int(1), leaves[n]}) })
		if p == "" && err == nil && !json.Valid(b) {
			return n
		}
	}
	return ""
}

func isContainer(v ugo.Object) bool {
	switch v.(type) {
	case ugo.Array, ugo.Map, *ugo.SyncMap:
		return true
	}
	return false
}

// checkAny: for every value the result of Marshal / MarshalIndent is an error
// or a document encoding/json.Valid accepts.
func checkAny(v ugo.Object, prefix, indent string) (fs []finding, out []byte, failed bool) {
	add := func(sig, format string, args ...any) {
		fs = append(fs, finding{sig, fmt.Sprintf(format, args...)})
	}
	dump := trunc(dumpV(v))
	var ub []byte
	var uerr error
	if p := safe(func() { ub, uerr = ugojson.Marshal(v) }); p != "" {
		add("marshal:panic:"+unwrap(v).TypeName(), "Marshal(%s) panicked: %s", dump, p)
		return fs, nil, true
	}
	if uerr != nil {
		failed = true
	} else if !json.Valid(ub) {
		root := unwrap(v)
		switch {
		case len(ub) == 0 && !isContainer(root):
			add("marshal:empty:"+root.TypeName(), "Marshal(%s) returned no error and an empty document", dump)
		default:
			off := offender(v)
			if off == "" {
				off = "unknown"
			}
			add("marshal:malformed:"+off, "Marshal(%s) returned no error and the malformed document %s", dump, q(ub))
		}
	} else {
		out = ub
	}

	var ui []byte
	var uierr error
	if p := safe(func() { ui, uierr = ugojson.MarshalIndent(v, prefix, indent) }); p != "" {
		add("marshalindent:panic", "MarshalIndent(%s,%q,%q) panicked: %s", dump, prefix, indent, p)
		return fs, out, failed
	}
	switch {
	case uierr == nil && uerr != nil:
		add("marshalindent:accepts-what-marshal-rejects", "MarshalIndent(%s) = %s but Marshal err=%v", dump, q(ui), uerr)
	case uierr == nil && out != nil:
		var ib bytes.Buffer
		if err := json.Indent(&ib, out, prefix, indent); err != nil || !bytes.Equal(ib.Bytes(), ui) {
			add("marshalindent:inconsistent", "MarshalIndent(%s,%q,%q) = %s, encoding/json.Indent(Marshal) = %s err=%v", dump, prefix, indent, q(ui), q(ib.Bytes()), err)
		} else if isJSONSpace(prefix) && isJSONSpace(indent) && !json.Valid(ui) {
			// prefix/indent are caller supplied text; only whitespace keeps the output valid
			add("marshalindent:malformed", "MarshalIndent(%s,%q,%q) returned the malformed document %s", dump, prefix, indent, q(ui))
		}
	case uierr == nil && len(fs) == 0 && !json.Valid(ui):
		add("marshalindent:malformed", "MarshalIndent(%s,%q,%q) returned the malformed document %s", dump, prefix, indent, q(ui))
	case uierr != nil && out != nil:
		add("marshalindent:rejects-what-marshal-accepts", "MarshalIndent(%s) err=%v but Marshal = %s", dump, uierr, q(out))
	}
	return fs, out, failed
}

func isJSONSpace(s string) bool {
	for i := 0; i < len(s); i++ {
		switch s[i] {
		case ' ', '\t', '\r', '\n':
		default:
			return false
		}
	}
	return true
}

// checkRoundTrip: Unmarshal(Marshal(v)) equals v for JSON-representable v.
func checkRoundTrip(v ugo.Object) (fs []finding) {
	dump := trunc(dumpV(v))
	var b []byte
	var err error
	var back ugo.Object
	if p := safe(func() {
		b, err = ugojson.Marshal(v)
		if err == nil {
			back, err = ugojson.Unmarshal(b)
		}
	}); p != "" {
		return []finding{{"roundtrip:panic", fmt.Sprintf("round trip of %s panicked: %s", dump, p)}}
	}
	if err != nil {
		return []finding{{"roundtrip:error", fmt.Sprintf("round trip of %s: err=%v (json=%s)", dump, err, q(b))}}
	}
	if !eqObj(v, back) {
		return []finding{{"roundtrip:value-differs", fmt.Sprintf("v=%s json=%s back=%s", dump, q(b), trunc(canon.Value(back)))}}
	}
	var bi []byte
	if p := safe(func() {
		bi, err = ugojson.MarshalIndent(v, "\t", "  ")
		if err == nil {
			back, err = ugojson.Unmarshal(bi)
		}
	}); p != "" {
		return []finding{{"roundtrip:panic", fmt.Sprintf("indented round trip of %s panicked: %s", dump, p)}}
	}
	if err != nil || !eqObj(v, back) {
		return []finding{{"roundtrip:indent-value-differs", fmt.Sprintf("v=%s json=%s back=%s err=%v", dump, q(bi), trunc(canon.Value(back)), err)}}
	}
	return nil
}

// ---- case records (JSON-able, sufficient to replay) ----

type docCase struct {
	Kind   string `json:"kind"` // "doc"
	B64    string `json:"b64"`
	Prefix string `json:"prefix"`
	Indent string `json:"indent"`
	Text   string `json:"text,omitempty"` // diagnostic, quoted
}

func mkDocCase(data []byte, prefix, indent string) docCase {
	return docCase{"doc", base64.StdEncoding.EncodeToString(data), prefix, indent, q(data)}
}

type valCase struct {
	Kind   string `json:"kind"` // "value"
	Dump   string `json:"dump"`
	JSON   string `json:"json,omitempty"` // what ugo emitted, if anything
	Prefix string `json:"prefix,omitempty"`
	Indent string `json:"indent,omitempty"`
}

// dumpV is canon.Value extended with the json module's own object types (so a
// case record shows raw message bytes and option flags) and safe on typed nils.
func dumpV(v ugo.Object) string {
	var sb bytes.Buffer
	dumpInto(&sb, v, 0)
	return sb.String()
}

func dumpInto(sb *bytes.Buffer, v ugo.Object, depth int) {
	if depth > 48 {
		sb.WriteString("<deep>")
		return
	}
	writeMap := func(m ugo.Map) {
		keys := make([]string, 0, len(m))
		for k := range m {
			keys = append(keys, k)
		}
		sort.Strings(keys)
		sb.WriteByte('{')
		for i, k := range keys {
			if i > 0 {
				sb.WriteByte(',')
			}
			fmt.Fprintf(sb, "%q:", k)
			dumpInto(sb, m[k], depth+1)
		}
		sb.WriteByte('}')
	}
	switch x := v.(type) {
	case nil:
		sb.WriteString("<nil>")
	case ugo.Array:
		if x == nil {
			sb.WriteString("nil")
		}
		sb.WriteByte('[')
		for i, e := range x {
			if i > 0 {
				sb.WriteByte(',')
			}
			dumpInto(sb, e, depth+1)
		}
		sb.WriteByte(']')
	case ugo.Map:
		if x == nil {
			sb.WriteString("nil")
		}
		writeMap(x)
	case ugo.Bytes:
		if x == nil {
			sb.WriteString("nil")
		}
		sb.WriteString(canon.Value(x))
	case *ugo.SyncMap:
		if x == nil {
			sb.WriteString("sync(nil)")
			return
		}
		sb.WriteString("sync")
		if x.Value == nil {
			sb.WriteString("nil")
		}
		writeMap(x.Value)
	case *ugo.ObjectPtr:
		sb.WriteByte('&')
		if x == nil || x.Value == nil {
			sb.WriteString("nil")
			return
		}
		dumpInto(sb, *x.Value, depth+1)
	case *ugojson.EncoderOptions:
		if x == nil {
			sb.WriteString("opts(nil)")
			return
		}
		fmt.Fprintf(sb, "opts(quote=%v,escape=%v,", x.Quote, x.EscapeHTML)
		dumpInto(sb, x.Value, depth+1)
		sb.WriteByte(')')
	case *ugojson.RawMessage:
		switch {
		case x == nil:
			sb.WriteString("raw(nil)")
		case x.Value == nil:
			sb.WriteString("raw(nil-value)")
		default:
			fmt.Fprintf(sb, "raw(%q)", x.Value)
		}
	default:
		s := ""
		if p := safe(func() { s = canon.Value(v) }); p != "" {
			s = fmt.Sprintf("<%T>", v)
		}
		sb.WriteString(s)
	}
}
