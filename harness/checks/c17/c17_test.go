// C17 - the json module produces and accepts exactly standard JSON.
package c17

import (
	"bytes"
	"encoding/base64"
	"encoding/json"
	"fmt"
	"os"
	"os/exec"
	"runtime/debug"
	"strconv"
	"strings"
	"testing"
	"time"

	"github.com/ozanh/ugo"
	ugojson "github.com/ozanh/ugo/stdlib/json"
	"pgregory.net/rapid"

	"verif/internal/canon"
	"verif/internal/ev"
)

const ruleText = "differential against encoding/json of the build toolchain. " +
	"VALUES (rapid, nesting<=6, boundary pools for every escape class / float format / int extreme): plain values -> Marshal and MarshalIndent bytes and error-ness equal encoding/json on ugo.ToInterface(v); " +
	"all values (plain + functions, errors, sync maps, object pointers, time, location, scanArg, embedder objects, raw messages valid/invalid, options wrappers made by the module's Quote/NoQuote/NoEscape, nil containers) -> error or encoding/json.Valid output, MarshalIndent consistent with Indent(Marshal); " +
	"JSON-representable values -> Unmarshal(Marshal(v)) == v (bit-wise floats). " +
	"DOCUMENTS (grammar with duplicate keys/escapes/surrogates/invalid UTF-8/float limits/whitespace/nesting, near-valid injections, single-edit mutations, arbitrary bytes, fixed corpus incl. nesting 9999..10002): Unmarshal accepts iff encoding/json.Unmarshal into any accepts and the value is structurally equal; module Valid/Compact(false)/Indent equal encoding/json Valid/Compact/Indent, Compact(true) equals HTMLEscape(Compact). " +
	"SCRIPT: the same calls through compiled scripts importing the module equal the Go API results. " +
	"Non-trivial = value that is a nested container or has a string needing escapes; document accepted by at least one side or one edit away from an accepted one; distinct by canonical dump / bytes hash"

var assumptions = []string{
	"\"standard\" is encoding/json of the Go toolchain the harness is built with (go1.23.5); error messages are not compared, only error-ness",
	"corresponding Go value = ugo.ToInterface(v): Char -> rune (a JSON number), Bytes -> []byte (base64 string), Uint -> uint64, Undefined -> nil; this is also what stdlib/json/encode.go implements and module_test.go shows",
	"JSON numbers decode to Float (documented by module_test.go and equal to ToObject(float64) of the standard result), so no oracle adaptation was needed for Unmarshal",
	"typed-nil pointers other than *SyncMap / *RawMessage (which the module handles explicitly) and nil Map/Array/Bytes are Go artefacts no script can build: nil containers are only checked for validity, not byte equality; nil *ObjectPtr / *EncoderOptions are not generated",
	"Valid / Compact / Indent exist only as script-visible module functions (the Go functions are unexported), so they are called through Module[...].Value, the adapter a script call uses",
	"the NoEscape option (documented: not to escape html while encoding) is compared with an encoding/json Encoder after SetEscapeHTML(false); Quote/NoQuote have no encoding/json counterpart for arbitrary values and are only required to give valid JSON",
	"MarshalIndent output is required to be valid JSON only when prefix and indent are JSON whitespace (encoding/json has the same behaviour); for other prefix/indent it is compared byte for byte",
	"an EncoderOptions whose Value is (transitively, through options only) itself is probed in a child process with a small stack limit because the failure mode is a fatal stack overflow",
}

type scriptSet struct {
	marshal, marshalIndent, unmarshal, valid, compact, indent, quote, noEscape, noQuote, raw *ugo.Bytecode
}

func compileScript(t testing.TB, src string) *ugo.Bytecode {
	mm := ugo.NewModuleMap()
	mm.AddBuiltinModule("json", ugojson.Module)
	bc, err := ugo.Compile([]byte(src), ugo.CompilerOptions{ModuleMap: mm})
	if err != nil {
		t.Fatalf("compile %q: %v", src, err)
	}
	return bc
}

func scripts(t testing.TB) *scriptSet {
	h := `json := import("json"); `
	return &scriptSet{
		marshal:       compileScript(t, `param x; `+h+`return json.Marshal(x)`),
		marshalIndent: compileScript(t, `param (x, p, i); `+h+`return json.MarshalIndent(x, p, i)`),
		unmarshal:     compileScript(t, `param d; `+h+`return json.Unmarshal(d)`),
		valid:         compileScript(t, `param d; `+h+`return json.Valid(d)`),
		compact:       compileScript(t, `param (d, e); `+h+`return json.Compact(d, e)`),
		indent:        compileScript(t, `param (d, p, i); `+h+`return json.Indent(d, p, i)`),
		quote:         compileScript(t, `param x; `+h+`return json.Marshal(json.Quote(x))`),
		noEscape:      compileScript(t, `param x; `+h+`return json.Marshal(json.NoEscape(x))`),
		noQuote:       compileScript(t, `param x; `+h+`return json.Marshal([json.Quote([x, json.NoQuote(x)])])`),
		raw:           compileScript(t, `param d; `+h+`return json.Marshal({k: json.RawMessage(d)})`),
	}
}

// runScript runs bc with args under a watchdog.
func runScript(bc *ugo.Bytecode, args ...ugo.Object) (ret ugo.Object, err error, p string) {
	vm := ugo.NewVM(bc)
	done := make(chan struct{})
	go func() {
		select {
		case <-done:
		case <-time.After(20 * time.Second):
			vm.Abort()
		}
	}()
	p = safe(func() { ret, err = vm.Run(nil, args...) })
	close(done)
	return
}

// sameResult compares a script result (bytes or error object) with a Go API result.
func sameResult(ret ugo.Object, goOut []byte, goErr error) bool {
	switch r := ret.(type) {
	case ugo.Bytes:
		return goErr == nil && bytes.Equal(r, goOut)
	case *ugo.Error:
		return goErr != nil
	}
	return false
}

func fuzzCorpusBytes(path string) ([][]byte, bool) {
	// a crasher written by `go test -fuzz`: "go test fuzz v1" then one Go literal per line
	data, err := os.ReadFile(path)
	if err != nil || !bytes.HasPrefix(data, []byte("go test fuzz v1")) {
		return nil, false
	}
	var out [][]byte
	for _, line := range strings.Split(string(data), "\n")[1:] {
		line = strings.TrimSpace(line)
		for _, pre := range []string{"[]byte(", "string("} {
			if strings.HasPrefix(line, pre) && strings.HasSuffix(line, ")") {
				if s, err := strconv.Unquote(line[len(pre) : len(line)-1]); err == nil {
					out = append(out, []byte(s))
				}
			}
		}
	}
	return out, true
}

func TestCheck(t *testing.T) {
	rec := ev.New("C17")
	rec.Rule = ruleText
	rec.Assumptions = assumptions
	defer func() { rec.Flush(!t.Failed() || rec.HasUnknown()) }()

	// report records a list of findings; it returns true when an unlisted one was seen.
	report := func(fs []finding, c any) (unknown *finding) {
		for i := range fs {
			if !rec.Violation(fs[i].Sig, fs[i].What, c) && unknown == nil {
				unknown = &fs[i]
			}
		}
		return unknown
	}
	failRT := func(rt *rapid.T, fs []finding, c any) {
		if u := report(fs, c); u != nil {
			rt.Fatalf("%s: %s", u.Sig, u.What)
		}
	}
	failT := func(t *testing.T, fs []finding, c any) {
		if u := report(fs, c); u != nil {
			t.Errorf("%s: %s", u.Sig, u.What)
		}
	}

	docOracle := func(data []byte, prefix, indent, class string) (fs []finding, info docInfo) {
		rec.Case()
		// Indent is quadratic in the nesting depth on both sides: of the very
		// deep fixed documents only [[...]] of depth 10000 and 10001 go through it.
		noIndent := len(data) > 8192 && class != "replay" && !((len(data) == 20000 || len(data) == 20002) && bytes.Count(data, []byte("["))*2 == len(data))
		if noIndent {
			rec.Exclude("indent-skipped-on-very-deep-document")
		}
		fs, info = checkDocOpt(data, prefix, indent, noIndent)
		switch {
		case info.StdAccepts:
			rec.Class("doc:accepted:" + class)
		case info.StdValid:
			rec.Class("doc:valid-syntax-rejected-value:" + class)
		default:
			rec.Class("doc:rejected:" + class)
		}
		return
	}

	// ---- replay mode -------------------------------------------------------
	if ev.ReplayOnly() {
		if docs, ok := fuzzCorpusBytes(os.Getenv("VERIF_REPLAY")); ok {
			prefix, indent := "", "\t"
			if len(docs) >= 3 {
				prefix, indent = string(docs[1]), string(docs[2])
			}
			if len(docs) > 0 {
				fs, _ := docOracle(docs[0], prefix, indent, "replay")
				failT(t, fs, mkDocCase(docs[0], prefix, indent))
			}
			return
		}
		for _, rf := range rec.Replays() {
			var c struct {
				Kind, B64, Prefix, Indent string
			}
			_ = json.Unmarshal(rf.Case, &c)
			if c.Kind == "doc" {
				data, err := base64.StdEncoding.DecodeString(c.B64)
				if err != nil {
					t.Fatalf("replay %s: %v", rf.Path, err)
				}
				fs, _ := docOracle(data, c.Prefix, c.Indent, "replay")
				failT(t, fs, mkDocCase(data, c.Prefix, c.Indent))
				continue
			}
			// value cases: best effort - the fixed list of non-plain shapes
			runFixedValues(t, rec, failT)
			runOptionsCycleProbe(t, rec)
		}
		return
	}

	n := ev.N(30000, 200000)

	// ---- A1: plain values, byte-for-byte differential -----------------------
	ev.RapidCheck(t, "marshal-plain", n, 1, func(rt *rapid.T) {
		v := plainValue(rt, plainOpts{maxDepth: 6}, 0)
		prefix := rapid.SampledFrom(indentPool).Draw(rt, "prefix")
		indent := rapid.SampledFrom(indentPool).Draw(rt, "indent")
		rec.Case()
		fs, out := checkPlain(v, prefix, indent)
		dump := dumpV(v)
		failRT(rt, fs, valCase{"value", dump, string(out), prefix, indent})
		nan := hasNaNInf(v)
		if _, isArr := v.(ugo.Array); isArr || isMap(v) || needsEscape(v) {
			rec.NonTriv("v" + dump)
		}
		switch {
		case nan:
			rec.Class("plain:nan-inf-rejected")
		case isMap(v) || isArrayV(v):
			rec.Class("plain:container")
		default:
			rec.Class("plain:scalar:" + leafKind(v))
		}
		rec.Sample(map[string]string{"kind": "plain value", "value": trunc(dump), "json": trunc(string(out))})
	})
	rec.Unfreeze()

	// ---- A2: every value -> error or valid JSON ------------------------------
	ev.RapidCheck(t, "marshal-any", n, 2, func(rt *rapid.T) {
		v := anyValue(rt, 0)
		prefix := rapid.SampledFrom(indentPool).Draw(rt, "prefix")
		indent := rapid.SampledFrom(indentPool).Draw(rt, "indent")
		rec.Case()
		fs, out, failed := checkAny(v, prefix, indent)
		dump := dumpV(v)
		failRT(rt, fs, valCase{"value", dump, string(out), prefix, indent})
		if isContainer(unwrap(v)) {
			rec.NonTriv("w" + dump)
		}
		switch {
		case failed:
			rec.Class("any:error")
		case isPlain(v):
			rec.Class("any:plain-valid")
		default:
			rec.Class("any:nonplain-valid")
		}
		rec.Sample(map[string]string{"kind": "any value", "value": trunc(dump), "json": trunc(string(out))})
	})
	rec.Unfreeze()

	// ---- C: round trip ----------------------------------------------------------
	ev.RapidCheck(t, "roundtrip", n, 3, func(rt *rapid.T) {
		v := plainValue(rt, plainOpts{jsonOnly: true, maxDepth: 6}, 0)
		rec.Case()
		dump := dumpV(v)
		failRT(rt, checkRoundTrip(v), valCase{Kind: "value", Dump: dump})
		if isMap(v) || isArrayV(v) || needsEscape(v) {
			rec.NonTriv("r" + dump)
		}
		rec.Class("roundtrip")
	})
	rec.Unfreeze()

	// ---- B + D: documents -------------------------------------------------------
	ev.RapidCheck(t, "documents", n, 4, func(rt *rapid.T) {
		var data []byte
		class := rapid.SampledFrom([]string{"grammar", "grammar", "mutation", "mutation", "near", "arbitrary"}).Draw(rt, "docclass")
		oneEdit := false
		switch class {
		case "grammar":
			data = genDoc(rt, "d")
		case "near":
			data = genGrammarDoc(rt, "d", rapid.IntRange(1, 2).Draw(rt, "nbad"))
		case "mutation":
			var op string
			data, op = mutate(rt, genDoc(rt, "d"))
			class += ":" + op
			oneEdit = true
		default:
			data = genArbitrary(rt)
		}
		prefix := rapid.SampledFrom(indentPool).Draw(rt, "prefix")
		indent := rapid.SampledFrom(indentPool).Draw(rt, "indent")
		fs, info := docOracle(data, prefix, indent, class)
		failRT(rt, fs, mkDocCase(data, prefix, indent))
		if info.StdAccepts || info.UgoAccepts || info.StdValid || oneEdit {
			rec.NonTriv("d" + string(data))
		}
		rec.Sample(map[string]any{"kind": "document", "class": class, "doc": q(data), "accepted": info.StdAccepts})
	})
	rec.Unfreeze()

	// ---- fixed corpora ---------------------------------------------------------
	t.Run("fixed-docs", func(t *testing.T) {
		for _, d := range fixedDocs() {
			variants := [][2]string{{"", "\t"}, {"> ", "  "}}
			if len(d) > 8192 {
				variants = [][2]string{{"", ""}}
			}
			for _, pi := range variants {
				fs, info := docOracle(d, pi[0], pi[1], "fixed")
				failT(t, fs, mkDocCase(d, pi[0], pi[1]))
				if info.StdAccepts || info.StdValid {
					rec.NonTriv("d" + string(d))
				}
			}
		}
	})
	rec.Unfreeze()
	t.Run("fixed-values", func(t *testing.T) { runFixedValues(t, rec, failT) })
	rec.Unfreeze()
	t.Run("options-cycle", func(t *testing.T) { runOptionsCycleProbe(t, rec) })
	rec.Unfreeze()

	// ---- E: through compiled scripts --------------------------------------------
	sc := scripts(t)
	ev.RapidCheck(t, "script", ev.N(3000, 20000), 5, func(rt *rapid.T) {
		which := rapid.SampledFrom([]string{"Marshal", "Marshal-any", "MarshalIndent", "Quote", "NoEscape", "NoQuote", "RawMessage", "Unmarshal", "Valid", "Compact", "Indent"}).Draw(rt, "fn")
		rec.Case()
		rec.Class("script:" + which)
		bad := func(c any, format string, args ...any) {
			failRT(rt, []finding{{"script:" + which + ":differs-from-go-api", fmt.Sprintf(format, args...)}}, c)
		}
		prefix := rapid.SampledFrom(indentPool).Draw(rt, "prefix")
		indent := rapid.SampledFrom(indentPool).Draw(rt, "indent")
		switch which {
		case "Marshal", "Marshal-any", "MarshalIndent", "Quote", "NoEscape", "NoQuote":
			var v ugo.Object
			if which == "Marshal-any" {
				v = anyValueX(rt, 2, true)
			} else {
				v = plainValue(rt, plainOpts{maxDepth: 4}, 0)
			}
			dump := dumpV(v)
			var goOut []byte
			var goErr error
			var ret ugo.Object
			var err error
			var p string
			pg := safe(func() {
				switch which {
				case "Marshal", "Marshal-any":
					goOut, goErr = ugojson.Marshal(v)
				case "MarshalIndent":
					goOut, goErr = ugojson.MarshalIndent(v, prefix, indent)
				case "Quote":
					goOut, goErr = ugojson.Marshal(&ugojson.EncoderOptions{Value: v, Quote: true, EscapeHTML: true})
				case "NoEscape":
					goOut, goErr = ugojson.Marshal(&ugojson.EncoderOptions{Value: v})
				case "NoQuote":
					goOut, goErr = ugojson.Marshal(ugo.Array{&ugojson.EncoderOptions{Value: ugo.Array{v, &ugojson.EncoderOptions{Value: v, EscapeHTML: true}}, Quote: true, EscapeHTML: true}})
				}
			})
			switch which {
			case "Marshal", "Marshal-any":
				ret, err, p = runScript(sc.marshal, v)
			case "MarshalIndent":
				ret, err, p = runScript(sc.marshalIndent, v, ugo.String(prefix), ugo.String(indent))
			case "Quote":
				ret, err, p = runScript(sc.quote, v)
			case "NoEscape":
				ret, err, p = runScript(sc.noEscape, v)
			case "NoQuote":
				ret, err, p = runScript(sc.noQuote, v)
			}
			c := valCase{"value", dump, string(goOut), prefix, indent}
			if pg != "" || p != "" || err != nil || !sameResult(ret, goOut, goErr) {
				bad(c, "json.%s(%s) in a script = %s (err=%v panic=%q), Go API = %s err=%v panic=%q", which, trunc(dump), trunc(canon.Value(ret)), err, p, q(goOut), goErr, pg)
			}
			if goErr == nil && which != "Marshal-any" && isJSONSpace(prefix) && isJSONSpace(indent) && !json.Valid(goOut) {
				failRT(rt, []finding{{"marshal:malformed:options:" + which, fmt.Sprintf("%s of plain %s = %s is not valid JSON", which, trunc(dump), q(goOut))}}, c)
			}
			if isMap(v) || isArrayV(v) || needsEscape(v) {
				rec.NonTriv("s" + which + dump)
			}
		default:
			var data []byte
			if rapid.Bool().Draw(rt, "mut") {
				data, _ = mutate(rt, genDoc(rt, "d"))
			} else {
				data = genDoc(rt, "d")
			}
			c := mkDocCase(data, prefix, indent)
			in := func() ugo.Object {
				if rapid.Bool().Draw(rt, "asString") {
					return ugo.String(data) // the adapters take bytes or string
				}
				return append(ugo.Bytes{}, data...)
			}
			switch which {
			case "Unmarshal":
				gv, gerr := ugojson.Unmarshal(append([]byte{}, data...))
				ret, err, p := runScript(sc.unmarshal, in())
				_, isErr := ret.(*ugo.Error)
				if p != "" || err != nil || isErr != (gerr != nil) || (gerr == nil && canon.Value(ret) != canon.Value(gv)) {
					bad(c, "json.Unmarshal(%s) in a script = %s (err=%v panic=%q), Go API = %s err=%v", q(data), trunc(canon.Value(ret)), err, p, trunc(canon.Value(gv)), gerr)
				}
			case "RawMessage":
				goOut, goErr := ugojson.Marshal(ugo.Map{"k": &ugojson.RawMessage{Value: append([]byte{}, data...)}})
				ret, err, p := runScript(sc.raw, in())
				if p != "" || err != nil || !sameResult(ret, goOut, goErr) {
					bad(c, "json.Marshal({k: json.RawMessage(%s)}) in a script = %s (err=%v panic=%q), Go API = %s err=%v", q(data), trunc(canon.Value(ret)), err, p, q(goOut), goErr)
				}
				if goErr == nil && !json.Valid(goOut) {
					failRT(rt, []finding{{"marshal:malformed:rawMessage", fmt.Sprintf("Marshal({k: RawMessage(%s)}) = %s is not valid JSON", q(data), q(goOut))}}, c)
				}
				if (goErr == nil) != json.Valid(data) {
					failRT(rt, []finding{{"marshal:rawMessage:accept-mismatch", fmt.Sprintf("Marshal({k: RawMessage(%s)}) err=%v but encoding/json.Valid=%v", q(data), goErr, json.Valid(data))}}, c)
				}
			case "Valid":
				ret, err, p := runScript(sc.valid, in())
				if p != "" || err != nil || ret != ugo.Bool(json.Valid(data)) {
					bad(c, "json.Valid(%s) in a script = %v (err=%v panic=%q), encoding/json.Valid = %v", q(data), ret, err, p, json.Valid(data))
				}
			case "Compact":
				esc := rapid.Bool().Draw(rt, "escape")
				goOut, rej, badc := callBytes("Compact", append(ugo.Bytes{}, data...), ugo.Bool(esc))
				var gerr error
				if rej {
					gerr = fmt.Errorf("rejected")
				}
				ret, err, p := runScript(sc.compact, in(), ugo.Bool(esc))
				if badc != "" || p != "" || err != nil || !sameResult(ret, goOut, gerr) {
					bad(c, "json.Compact(%s,%v) in a script = %s (err=%v panic=%q), adapter = %s rejected=%v %s", q(data), esc, trunc(canon.Value(ret)), err, p, q(goOut), rej, badc)
				}
			case "Indent":
				goOut, rej, badc := callBytes("Indent", append(ugo.Bytes{}, data...), ugo.String(prefix), ugo.String(indent))
				var gerr error
				if rej {
					gerr = fmt.Errorf("rejected")
				}
				ret, err, p := runScript(sc.indent, in(), ugo.String(prefix), ugo.String(indent))
				if badc != "" || p != "" || err != nil || !sameResult(ret, goOut, gerr) {
					bad(c, "json.Indent(%s,%q,%q) in a script = %s (err=%v panic=%q), adapter = %s rejected=%v %s", q(data), prefix, indent, trunc(canon.Value(ret)), err, p, q(goOut), rej, badc)
				}
			}
			rec.NonTriv("s" + which + string(data))
		}
	})
}

func isMap(v ugo.Object) bool    { _, ok := v.(ugo.Map); return ok }
func isArrayV(v ugo.Object) bool { _, ok := v.(ugo.Array); return ok }

// runFixedValues runs the enumerated value list: validity for every entry,
// the byte differential for the plain ones, an error for every cyclic one.
func runFixedValues(t *testing.T, rec *ev.Rec, failT func(*testing.T, []finding, any)) {
	for _, nv := range fixedValues() {
		v := nv.mk()
		rec.Case()
		cyclic := strings.HasPrefix(nv.name, "cycle-")
		dump := nv.name
		if !cyclic {
			dump = nv.name + " = " + trunc(dumpV(v))
		}
		if cyclic {
			// canon / offender walks would not terminate: only error-ness is checked
			var b []byte
			var err error
			p := safe(func() { b, err = ugojson.Marshal(v) })
			c := valCase{Kind: "value", Dump: dump, JSON: string(b)}
			switch {
			case p != "":
				failT(t, []finding{{"marshal:panic:" + nv.name, "Marshal(" + nv.name + ") panicked: " + p}}, c)
			case err == nil:
				failT(t, []finding{{"marshal:cycle-not-rejected:" + nv.name, fmt.Sprintf("Marshal(%s) returned %s without error", nv.name, q(b))}}, c)
			default:
				rec.Class("fixed:cycle-rejected")
				rec.NonTriv("f" + nv.name)
			}
			continue
		}
		fs, out, failed := checkAny(v, "", " ")
		if isPlain(v) {
			pfs, _ := checkPlain(v, "", " ")
			fs = append(fs, pfs...)
		}
		failT(t, fs, valCase{"value", dump, string(out), "", " "})
		switch {
		case failed:
			rec.Class("fixed:error")
		case len(fs) == 0:
			rec.Class("fixed:valid")
		}
		rec.NonTriv("f" + nv.name)
	}
}

// ---- options cycle probe (child process) -------------------------------------

const cycleEnv = "C17_OPTIONS_CYCLE_CHILD"

// TestOptionsCycleChild is the child half of runOptionsCycleProbe: it marshals
// an EncoderOptions value that contains itself. A correct encoder returns an
// error; unbounded recursion dies with a fatal stack overflow, which cannot be
// recovered - hence the separate process and the small stack limit.
func TestOptionsCycleChild(t *testing.T) {
	kind := os.Getenv(cycleEnv)
	if kind == "" {
		t.Skip("child half of the options-cycle probe")
	}
	debug.SetMaxStack(16 << 20)
	var v ugo.Object
	switch kind {
	case "self":
		eo := &ugojson.EncoderOptions{Quote: true, EscapeHTML: true}
		eo.Value = eo
		v = eo
	case "pair":
		a := &ugojson.EncoderOptions{}
		b := &ugojson.EncoderOptions{Value: a, Quote: true}
		a.Value = b
		v = ugo.Array{ugo.Int(1), a}
	case "ptr":
		a := &ugojson.EncoderOptions{}
		var o ugo.Object = a
		a.Value = &ugo.ObjectPtr{Value: &o}
		v = a
	}
	b, err := ugojson.Marshal(v)
	fmt.Printf("C17CHILD returned err=%v valid=%v out=%q\n", err, json.Valid(b), b)
}

func runOptionsCycleProbe(t *testing.T, rec *ev.Rec) {
	exe, err := os.Executable()
	if err != nil {
		rec.Inconcl("options-cycle:no-executable")
		return
	}
	for _, kind := range []string{"self", "pair", "ptr"} {
		rec.Case()
		cmd := exec.Command(exe, "-test.run", "^TestOptionsCycleChild$", "-test.v")
		cmd.Env = append(os.Environ(), cycleEnv+"="+kind, "VERIF_OUT=", "VERIF_REPLAY=")
		var outb bytes.Buffer
		cmd.Stdout, cmd.Stderr = &outb, &outb
		done := make(chan error, 1)
		if err := cmd.Start(); err != nil {
			rec.Inconcl("options-cycle:start-failed")
			continue
		}
		go func() { done <- cmd.Wait() }()
		var werr error
		select {
		case werr = <-done:
		case <-time.After(60 * time.Second):
			_ = cmd.Process.Kill()
			<-done
			rec.Inconcl("options-cycle:timeout")
			continue
		}
		out := outb.String()
		c := valCase{Kind: "value", Dump: "encoderOptions cycle: " + kind}
		switch {
		case strings.Contains(out, "C17CHILD returned err=<nil>"):
			if !rec.Violation("marshal:cycle-not-rejected:encoderOptions", "Marshal of an encoderOptions cycle ("+kind+") returned without error: "+trunc(out), c) {
				t.Errorf("encoderOptions cycle %s not rejected: %s", kind, trunc(out))
			}
		case strings.Contains(out, "C17CHILD returned err="):
			rec.Class("fixed:options-cycle-rejected")
			rec.NonTriv("optcycle" + kind)
		case strings.Contains(out, "stack overflow") || strings.Contains(out, "goroutine stack exceeds"):
			what := "Marshal of an encoderOptions value that contains itself (variant " + kind + "; script form of the simplest one: x := json.Quote(1); x.Value = x; json.Marshal(x)) recurses without bound: fatal stack overflow of the host process (child exit: " + fmt.Sprint(werr) + ")"
			if !rec.Violation("marshal:crash:encoderOptions-cycle", what, c) {
				t.Errorf("%s", what)
			}
		default:
			rec.Inconcl("options-cycle:unrecognised-child-output")
			t.Logf("options-cycle child (%s): err=%v output:\n%s", kind, werr, trunc(out))
		}
	}
}
