#!/bin/sh
for c in C02 C06 C07 C03 C01 C10 C04 C11; do VERIF_SEED=1 bin/check $c thorough 2>&1 | grep -E "VIOLATION|sig:|INCONCLUSIVE|thorough seed" | cut -c1-250; done
