#!/bin/sh
for c in C02 C07 C05 C01 C03 C10 C04 C11 C14 C17 C19; do VERIF_SEED=2 bin/check $c thorough 2>&1 | grep -E "VIOLATION|sig:|INCONCLUSIVE|thorough seed" | cut -c1-250; done
