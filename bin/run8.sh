#!/bin/sh
for c in C18 C17 C05; do VERIF_SEED=1 bin/check $c thorough 2>&1 | grep -E "VIOLATION|sig:|INCONCLUSIVE|thorough seed" | cut -c1-250; done
for c in C01 C02 C03 C04 C10 C11 C14 C19 C20 C13 C16 C12 C07; do VERIF_SEED=3 bin/check $c thorough 2>&1 | grep -E "VIOLATION|sig:|INCONCLUSIVE|thorough seed" | cut -c1-250; done
