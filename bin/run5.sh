#!/bin/sh
VERIF_SEED=1 bin/check C10 thorough 2>&1 | tail -4
for c in C01 C02 C03 C10 C14 C16 C05 C04 C12 C07 C11; do VERIF_SEED=2 bin/check $c thorough 2>&1 | grep -E "VIOLATION|sig:|INCONCLUSIVE|thorough seed" | cut -c1-250; done
